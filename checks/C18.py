"""C18 — blocklist matching is exact and its persisted form converges to memory."""

_H = {"middleware/blocklist": ["zz_verif_c18_*_test.go"]}
_RW = {"middleware/blocklist": ["sync", "sync/atomic", "os"]}
# C18/refresh: the start-up refresh goroutine's 1 s start delay is removed in the overlay copy (anchor-checked), nothing else
_RF_PATCH = {"middleware/blocklist/updater.go": [["\t<-time.After(time.Second)\n", "\t// verif: start delay removed (unit C18/refresh drives this function as a scheduled thread)\n"]]}

CHECK = {
    "level": "model_checking",
    "engines": ["space", "sched", "crash"],
    "technique": "bounded-exhaustive (list x name x qtype) comparison of the real BlockList/ServeDNS with a label-slice reference matcher; preemption-bounded schedule DFS (controlled scheduler over vsync/vatomic/vos) of concurrent Set/Remove/SetBatch/RemoveBatch with a set-model linearizability + file==memory + restart oracle and an every-scheduling-point crash-consistency monitor; crash-prefix / power-loss / fault-position enumeration of the real persist() file-operation log; bounded-exhaustive API histories over keys as a client can spell them, each followed by a restart and a member-by-member comparison",
    "level_text": "Every list of <=3 entries (plain / *.wildcard / whitelist forms over names of depth <=3 on {a,b,notb,B}) is built through the real configuration path and compared on every query name of depth <=4 (incl. root, mixed case, label-boundary near misses) with a reference matcher written from the property text, for Exists() and for the ServeDNS reply inside a real middleware.Chain. Every schedule (<=2/3 preemptions) of 2-3 threads each doing one API mutation runs on the real code with mu, saveMu and every file operation as scheduling points; at quiescence the final list must be explained by an order of the operations, the file must list exactly the in-memory entries and a restart must match identically on the whole query alphabet; at every scheduling point the file on disk must be the last complete list. For sequential histories the file-operation log of the last persistence is expanded into every process-crash prefix and power-loss image, and every file operation is made to fail in turn. refresh: the one-off start-up refresh (the real refreshRemote, which re-reads the blocklist directory about a second after start while the API already serves; its start delay removed by an anchor-checked overlay patch, no remote lists configured) as one more scheduled thread against 1 API thread (every operation x 3 initial lists, preemption bound 2, thorough 3) and against 2 API threads (every multiset, bound 2, one initial list; thorough all three): same scheduling points and the persist unit's oracle unchanged - the refresh is a no-op in the reference, so the final list must be explained by an order of the API operations alone, the file must reload to exactly the in-memory list and must at every point be the last complete list. keys: every sequence of <=2 (thorough <=3) Set / Remove / SetBatch calls over 16 keys as an API client can spell them (mixed case, with/without final dot, wildcard forms, '#' and white space inside / before / after the name, hosts-file shaped keys, escaped dots, the root, '*.') on a real BlockList with a real directory; afterwards a fresh BlockList loads the directory with the package's own loader and must hold exactly the same members and answer Exists() identically on every key and on every name a lossy write/read could produce (field splits, comment cuts). A key the API refuses is simply absent from memory (allowed). escaped: every list of <=2 entries (plain / wildcard, + <=1 whitelist entry) over names of depth <=2 built from the labels {a, b, x\\.b, a\\.b, x\\\\} (labels containing a dot or a backslash, presentation form) x every query name of depth <=2 (thorough <=3) over the same labels, through the real configuration path, Exists and ServeDNS, against a reference that splits labels on unescaped dots only (cross-checked against the DNS library's splitter).",
    "level_note": "Trusted: the vsync/vatomic/vos shims (sequentially consistent; every vos call is a point and is logged right before it executes), the crashfs power-loss model (unsynced tails cut at write boundaries, namespace operations since the last directory fsync lost as a suffix), a tmpfs scratch directory. New() is reproduced without its `go refreshRemote()` goroutine (struct literal + loadInitial). Set/Remove/SetBatch/RemoveBatch persist synchronously on the caller's goroutine, so the managed threads call the real API.",
    "rule": "match: all subsets of <=3 (thorough: also <=4 on the depth<=2 pool) entries x all query names; 'nontrivial' = lists that block at least one query name and leave at least one unblocked; 'states' = distinct in-memory list states. persist: all multisets of 2 and 3 single-operation threads over the operation alphabet x initial lists, every schedule within the preemption bound; 'states' = distinct (scenario, final memory, results, persisted version) outcomes, 'nontrivial' = outcomes of scenarios with >=2 distinct outcomes. crash: all sequences of 1-3 (thorough 1-4) operations; every crash image of the last persistence; 'states' = distinct images, 'nontrivial' = images taken strictly inside the sequence with a temp file present; roundtrip: all lists of <=3 entries persisted by one SetBatch and restarted, 'nontrivial' = lists with >=2 members",
    "assumptions": [
        "list entries are non-root names (depth 1-3); the root is a query name only",
        "sequential consistency for the scheduled scenarios",
        "the whitelist comes from configuration only and is identical across restarts",
        "persist() writes lines in map-iteration order, so every line order is reachable; the restart oracle uses the actual, the parent-first and the child-first order",
    ],
    "bounds": {
        "quick": "match: 141 entries (47 names, mixed-case label in names of depth<=2) lists<=3 x 341 names, ServeDNS on all names x 5 qtypes for lists<=2, on depth<=1 names for 3-entry lists; persist: 8 ops, pairs x3 initial lists + triples x2 initial lists, preemption bound 2; crash: 9 ops, histories of length<=3, process-crash + power-loss + fault at every op (plain and short write); roundtrip lists<=3 over 40 entries",
        "thorough": "match: 252 entries (84 names) lists<=3 x 341 names with ServeDNS on every name of depth<=3 (rotating qtype), plus lists<=4 over 60 entries; persist: 12 ops, pairs x3 at bound 3, triples x3 at bound 2, triples of the 8 quick ops at bound 3; crash: 13 ops, histories of length<=4; roundtrip lists<=2 over 168 entries and <=4 over 40 entries",
    },
    "units": {
        "match": {"pkg": "middleware/blocklist", "run": "TestVerifC18Match", "harness": _H,
                  "budget_s": {"quick": 60, "thorough": 700}},
        # every key the API accepts (incl. '#', white space, escapes, root) round-trips through the list file
        "keys": {"pkg": "middleware/blocklist", "run": "TestVerifC18Keys", "harness": _H,
                 "budget_s": {"quick": 40, "thorough": 300}},
        # whole-label matching for labels that contain a dot (presentation form `x\\.b.`)
        "escaped": {"pkg": "middleware/blocklist", "run": "TestVerifC18Escaped", "harness": _H,
                    "budget_s": {"quick": 40, "thorough": 300}},
        "persist": {"pkg": "middleware/blocklist", "run": "TestVerifC18Persist", "harness": _H, "rewrite": _RW,
                    "gomaxprocs": 1, "budget_s": {"quick": 60, "thorough": 600}},
        "refresh": {"pkg": "middleware/blocklist", "run": "TestVerifC18Refresh", "harness": _H, "rewrite": _RW, "patch": _RF_PATCH,
                    "gomaxprocs": 1, "budget_s": {"quick": 60, "thorough": 400}},
        "crash": {"pkg": "middleware/blocklist", "run": "TestVerifC18Crash", "harness": _H, "rewrite": _RW,
                  "budget_s": {"quick": 45, "thorough": 400}},
    },
}
