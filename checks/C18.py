"""C18 — blocklist matching is exact and its persisted form converges to memory."""

_H = {"middleware/blocklist": ["zz_verif_c18_*_test.go"]}
_RW = {"middleware/blocklist": ["sync", "sync/atomic", "os"]}

CHECK = {
    "level": "model_checking",
    "engines": ["space", "sched", "crash"],
    "technique": "bounded-exhaustive (lists x names) comparison with a label-slice reference matcher; preemption-bounded schedule DFS of concurrent Set/Remove/SetBatch/RemoveBatch over the vsync/vos shims with a set-model + reload oracle; crash-prefix / power-loss / fault enumeration of the real persist file-operation log",
    "level_text": "",
    "level_note": "",
    "rule": "",
    "assumptions": [],
    "bounds": {"quick": "", "thorough": ""},
    "units": {
        "match": {"pkg": "middleware/blocklist", "run": "TestVerifC18Match", "harness": _H,
                  "budget_s": {"quick": 60, "thorough": 600}},
        "persist": {"pkg": "middleware/blocklist", "run": "TestVerifC18Persist", "harness": _H, "rewrite": _RW,
                    "gomaxprocs": 1, "budget_s": {"quick": 45, "thorough": 420}},
        "crash": {"pkg": "middleware/blocklist", "run": "TestVerifC18Crash", "harness": _H, "rewrite": _RW,
                  "budget_s": {"quick": 45, "thorough": 300}},
    },
}
