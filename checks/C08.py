"""C08 — a delegation never outlives the lease its parent granted (ghost domains)."""

_H = {
    "middleware": ["zz_verif_export.go"],
    "middleware/resolver": ["zz_verif_export_authsim.go", "zz_verif_export_c08.go"],
    "middleware/cache": ["zz_verif_export_authsim.go", "zz_verif_export_c08.go"],
    "internal/authority": ["zz_verif_export_authsim.go", "zz_verif_export_c08.go"],
}
_RW = {"internal/authority": ["time"], "internal/dnsutil": ["time"], "middleware": ["time"],
       "middleware/cache": ["time"], "middleware/resolver": ["time"]}

CHECK = {
    "level": "model_checking",
    "engines": ["space", "authsim"],
    "technique": "TODO",
    "level_text": "TODO",
    "level_note": "TODO",
    "rule": "TODO",
    "assumptions": [],
    "bounds": {"quick": "TODO", "thorough": "TODO"},
    "units": {
        "lease": {"pkg": "internal/verifshim/h_c08", "run": "TestVerifC08Lease", "harness": _H, "rewrite": _RW,
                  "shards": 16, "gomaxprocs": 2, "budget_s": {"quick": 60, "thorough": 290}},
        "dnssec": {"pkg": "internal/verifshim/h_c08", "run": "TestVerifC08DNSSEC", "harness": _H, "rewrite": _RW,
                   "shards": 16, "gomaxprocs": 2, "budget_s": {"quick": 50, "thorough": 290}},
    },
}
