"""C11 — exactly one reply per admitted query, whatever upstreams do."""

# every sync.Pool of these packages becomes a deterministic LIFO (vsync.PoolLIFO): the object
# one request releases is always what the next request gets
_SRV_RW = {"server": ["sync"], "middleware": ["sync"], "middleware/edns": ["sync"], "middleware/cache": ["sync"],
           "internal/wire": ["sync"], "internal/cache": ["sync"], "internal/dnsclient": ["sync"]}
_SRV_H = {"server": ["zz_verif_c11_*.go"], "middleware": ["zz_verif_export.go"]}

CHECK = {
    "level": "model_checking",
    "engines": ["sched", "event", "space"],
    "technique": "preemption-bounded schedule DFS of the real dedup primitive under the controlled scheduler; exhaustive operation sequences on the real response writer against a one-bit model; event-level exploration (all event orders, replay from a fresh world) of the real Cache.ServeDNS dedup loop with exact goroutine-snapshot quiescence; scripted-connection exploration of the real TCP engine over frame sequences x read segmentations x close points; single-goroutine step-order exploration of the real UDP engine over real loopback sockets with sentinel-delimited observation",
    "level_text": "waitgroup: every schedule (<=2/3 preemptions) of 3 threads running the cache's leader/follower protocol (JoinGeneration -> leader works then DoneGeneration; follower waits for the generation, re-checks, Regroups at most once) plus a late DoneGeneration of an older timed-out leader, on the real internal/waitgroup compiled against vsync: one leader per generation, followers released only by their own leader, a cohort regroups onto one generation, an old leader never ends/unregisters a newer generation, no deadlock, nothing registered or open at quiescence. writer: every sequence of <=3/5 operations {WriteMsg, Write, Write(undecodable), WriteWire, BeginWire+CommitWire, BeginWire+AbortWire} x {direct-pack, leasing transport, failing transport}: exactly the first successful payload reaches the transport, later writes are refused and send nothing, an abort sends nothing and permits a later write, a recycled chain accepts the next client's reply. dedup: all orders (depth 6/8) of {identical client arrives, different-name client arrives, release a parked downstream resolution with answer/SERVFAIL/request-local failure/no write, cancel a waiting follower, expire a waiting follower's deadline} on the real cache + gated stub, with and without an expired RFC 9520 failure entry, message-born and wire-born entry: every client gets exactly one reply (none only if its own context was cancelled or its own downstream wrote nothing), correct ID/question, nobody stays parked after the drain, no client is failed by another client's request-local failure or deadline (except the documented probe-budget shed), no second concurrent probe/leader, at most one regroup. tcp: <=3/4 pipelined frames from {hit, miss, malformed body, QR=1, NOTIFY, sub-header length, 2048/2049/4200-byte queries, handler panic} x every segmentation of short streams (all cut positions) / all cuts at structural offsets for long ones x every close point: output is whole frames, one per completely delivered admitted query, in order, own ID/question/marker; replies are on the wire whenever the connection waits at a frame boundary; afterwards all tokens home, no connection registered, no slab leased. udp: <=3/4 datagrams from 2-3 sockets x admission cap 1-3 x inline on/off x every legal order of the engine's own reader/worker steps: each admitted query's sender gets exactly one datagram, ignored/shed ones none, inFlight==0 and leases == reader holdover at the end.",
    "level_note": "Trusted: vsync models sync (sequential consistency); in the waitgroup unit the follower's channel wait is modelled as sched.Block on generation.ctx.Err()!=nil and timed-out generations are hand-built with an expired deadline context; the 'replaced' start state (an old unregistered generation next to a live one) is built by hand because Regroup's tombstone rule makes it unreachable through the API today. dedup: quiescence = a stop-the-world goroutine snapshot in which every client goroutine is finished, blocked in the stub gate, or blocked in the select of Cache.ServeDNS and no other goroutine is runnable; the order in which several followers woken by one DoneGeneration run is not enumerated (clients woken together are symmetric; that concurrency is what the waitgroup unit covers). tcp: the connection is an in-memory net.Conn whose Read parks on a harness gate; deadlines are no-ops. udp: the harness plays the kernel for recvmmsg (fills the armed iovec/sockaddr/length) and calls the engine's real step functions from one goroutine; the portable reader, the bodies of run()/worker() themselves, overflow goroutines and wildcard pktinfo are not driven. Upstream fault scripts against the full resolver (authsim), DoH/DoQ transports and real-time latency bounds are not part of this check.",
    "rule": "cases are enumerated simplest-first per unit as described in level_text; 'states' = scenario x observable outcome (waitgroup), configuration x result (writer), symmetric role multiset + store sizes (dedup), frame sequence x class of every read boundary (tcp), datagram sequence x cap x inline x full schedule (udp); 'nontrivial' = waitgroup scenarios with more than one observable outcome, writer sequences of >=2 operations, dedup states with at least one parked follower, tcp cases with >=2 frames and a read boundary strictly inside a frame, udp schedules with >=2 datagrams",
    "assumptions": ["sequential consistency for the scheduled unit", "loopback UDP preserves order per socket pair (used only to delimit observations with sentinels)",
                    "real elapsed time per run is far below the 15 s generation timeout, the 2 s TCP query wait and the 30 s query timeout"],
    "bounds": {"quick": "waitgroup: 50 scenarios, preemption bound 2; writer: length<=3 x 8 configs; dedup: depth 6, 3 identical clients + 1 other; tcp: all cuts (<=2) on <=2 small frames, structural cuts (<=2) on <=3 frames of 10 kinds; udp: <=3 datagrams, 2 clients, cap 1-2",
               "thorough": "waitgroup: preemption bound 3; writer: length<=5; dedup: depth 8, 4 identical clients (time-capped); tcp: <=3 cuts all positions, <=5 structural cuts, 4 frames (time-capped); udp: <=4 datagrams, 3 clients, cap 1-3 (time-capped)"},
    "units": {
        "waitgroup": {"pkg": "internal/waitgroup", "run": "TestVerifC11WG",
                      "harness": {"internal/waitgroup": ["zz_verif_c11_*.go"]},
                      "rewrite": {"internal/waitgroup": ["sync", "sync/atomic"]}, "gomaxprocs": 1,
                      "budget_s": {"quick": 40, "thorough": 300}},
        "writer": {"pkg": "middleware", "run": "TestVerifC11Writer",
                   "harness": {"middleware": ["zz_verif_c11_*.go"]}, "shards": 4,
                   "budget_s": {"quick": 30, "thorough": 120}},
        "dedup": {"pkg": "middleware/cache", "run": "TestVerifC11Dedup",
                  "harness": {"middleware/cache": ["zz_verif_common_test.go", "zz_verif_c11_*.go"], "middleware": ["zz_verif_export.go"]},
                  "stub_tests": ["middleware/cache"], "gomaxprocs": 2,
                  "budget_s": {"quick": 60, "thorough": 240}},
        "tcp": {"pkg": "server", "run": "TestVerifC11TCP", "harness": _SRV_H,
                "rewrite": _SRV_RW, "gomaxprocs": 2,
                "budget_s": {"quick": 60, "thorough": 200}},
        "udp": {"pkg": "server", "run": "TestVerifC11UDP", "harness": _SRV_H,
                "rewrite": _SRV_RW, "gomaxprocs": 2,
                "budget_s": {"quick": 60, "thorough": 200}},
        "lookup": {"pkg": "middleware/resolver", "run": "TestVerifC11Lookup",
                   "harness": {"middleware/resolver": ["zz_verif_c11lk_*_test.go"]}, "gomaxprocs": 2,
                   "budget_s": {"quick": 40, "thorough": 420}},
    },
}
