"""C11 — exactly one reply per admitted query, whatever upstreams do (work in progress)."""

CHECK = {
    "level": "model_checking",
    "engines": ["sched", "event"],
    "technique": "wip",
    "level_text": "wip",
    "level_note": "wip",
    "rule": "wip",
    "assumptions": [],
    "bounds": {"quick": "", "thorough": ""},
    "units": {
        "waitgroup": {"pkg": "internal/waitgroup", "run": "TestVerifC11WG",
                      "harness": {"internal/waitgroup": ["zz_verif_c11_*.go"]},
                      "rewrite": {"internal/waitgroup": ["sync", "sync/atomic"]}, "gomaxprocs": 1,
                      "budget_s": {"quick": 40, "thorough": 300}},
    },
}
