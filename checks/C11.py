"""C11 — exactly one reply per admitted query, whatever upstreams do (work in progress)."""

_SRV_RW = {"server": ["sync"], "middleware": ["sync"], "middleware/edns": ["sync"], "middleware/cache": ["sync"],
           "internal/wire": ["sync"], "internal/cache": ["sync"], "internal/dnsclient": ["sync"]}

CHECK = {
    "level": "model_checking",
    "engines": ["sched", "event"],
    "technique": "wip",
    "level_text": "wip",
    "level_note": "wip",
    "rule": "wip",
    "assumptions": [],
    "bounds": {"quick": "", "thorough": ""},
    "units": {
        "waitgroup": {"pkg": "internal/waitgroup", "run": "TestVerifC11WG",
                      "harness": {"internal/waitgroup": ["zz_verif_c11_*.go"]},
                      "rewrite": {"internal/waitgroup": ["sync", "sync/atomic"]}, "gomaxprocs": 1,
                      "budget_s": {"quick": 40, "thorough": 300}},
        "writer": {"pkg": "middleware", "run": "TestVerifC11Writer",
                   "harness": {"middleware": ["zz_verif_c11_*.go"]}, "shards": 4,
                   "budget_s": {"quick": 30, "thorough": 120}},
        "dedup": {"pkg": "middleware/cache", "run": "TestVerifC11Dedup",
                  "harness": {"middleware/cache": ["zz_verif_common_test.go", "zz_verif_c11_*.go"], "middleware": ["zz_verif_export.go"]},
                  "stub_tests": ["middleware/cache"], "gomaxprocs": 2,
                  "budget_s": {"quick": 60, "thorough": 500}},
        "tcp": {"pkg": "server", "run": "TestVerifC11TCP",
                "harness": {"server": ["zz_verif_c11_*.go"], "middleware": ["zz_verif_export.go"]},
                "rewrite": _SRV_RW, "gomaxprocs": 2,
                "budget_s": {"quick": 60, "thorough": 600}},
    },
}
