"""C07 — authoritative data is trusted only inside the sender's bailiwick."""

_H = {
    "middleware": ["zz_verif_export.go"],
    "middleware/resolver": ["zz_verif_export_authsim.go", "zz_verif_export_c07race.go"],
    "middleware/cache": ["zz_verif_export_authsim.go"],
    "internal/authority": ["zz_verif_export_authsim.go"],
}

CHECK = {
    "level": "exploration",
    "engines": ["space", "authsim"],
    "technique": "bounded-exhaustive enumeration of adversarial authoritative-server behaviours x tampered exchange x warm-up x configuration, each run as a history (attacker-zone query, every victim probe, the attacker-zone query again) on the real default chain (... edns ... cache ... resolver ...) resolving over loopback UDP/TCP against a scripted hierarchy (zonemodel + authsim); every client-visible reply and the upstream query log judged against the zone model (who is authoritative for what); plus every sequence of <= 3 datagrams / frames through the real dnsclient.Conn.Exchange on scripted in-memory connections",
    "level_text": "Universe: signed root -> signed t. -> unsigned leaves: attacker zone z.t. (server fully scripted) with its child s.z.t. on a second attacker server, victim v.t. (www, mail, a, x, ns.v.t.), g.t. hosted by the victim's server with NS host ns.v.t. (its referral carries no glue, so resolving it consults the resolver's glue cache), bystander w.t. Attacker-zone queries: a plain answer, a name below the attacker's own referral (two attacker exchanges), a legitimate cross-zone CNAME and DNAME into the victim zone, an NXDOMAIN (thorough: also NS / AAAA-NODATA / CNAME / TXT questions). For EVERY exchange the untampered resolution has with an attacker server (position) and EVERY behaviour of a 47-entry list — answer section with extra / leading / only RRsets owned by the victim (A, NS, DNAME); authority section with NS sets for the victim, the TLD, the root, a sibling (+ glue); additional section with victim / TLD host addresses; CNAME, two-hop CNAME and DNAME chains continued with a forged out-of-zone target in the same message (also with a forged authority section); self / upward (TLD, root, own parent) / sideways (victim, victim with its own NS host, sibling) referrals; referrals off the path to the query name and below it; mixed-owner NS sets in both orders and with two in-zone owners; wrong-class NS; legitimate referrals whose glue is 127.0.0.1, 127.0.0.53, ::1 / ::ffff:127.0.0.1, a local interface address, 0.0.0.0 (observed only), mixed loopback + real, glue for another in-zone name, glue for NS hosts in the victim / sibling / TLD zone, two NS of which one foreign; and, through a proxy in front of the attacker's socket, forged datagrams sent BEFORE the real response: wrong ID (1 and 2), right ID with wrong question name / type / class / no question, wrong ID then wrong question, garbage — ONE response is rewritten (also delivered over TCP after a TC=1 reply, also with the probe order reversed), under 4 configurations (DNSSEC validation off / on x QNAME minimisation off / on) and 3 warm-ups (cold, victim delegation cached, every victim probe cached). Then pairs: both attacker exchanges of one resolution, two attacker queries in sequence, alias query then referral query (33 x 33 behaviours each); thorough: two behaviours composed into one response (all ordered pairs) at every position. After each attack the client asks www.g.t, www.v.t, v.t NS, ns.v.t, mail.v.t, www.w.t, t. NS, . NS, www.v.t AAAA, nx.v.t (+ the DNAME-substituted victim name) and the attacker-zone question again. Oracle: (1) every victim reply is the zone model's truth (rcode + answer RRsets as sets) or SERVFAIL, and no section of it carries the poison address or a name in the attacker's zone; (2) the answer section of the reply to the attacker-zone question holds no RRset owned outside z.t. unless it equals what its own zone publishes AND the log shows that zone's server was asked for it (re-resolved alias target), and never the payload of a datagram that did not match the outstanding query; the same for the repeated (cache-served) ask; (3) every victim answer's authority was asked in this history; (4) the trap listener behind every attacker-supplied address that is never legitimate (forged glue 6.6.6.6, loopback, local interface) received zero queries. Unit 'exchange': 16-symbol datagram alphabet (right answer, other letter case, 3 wrong IDs, question with other name / parent name / type / class / none / two, QR=0 with right and wrong ID, short garbage, cut body, TC=1), every sequence of <= 3 over UDP and TCP, through Exchange / ExchangeContext / ExchangeInterruptible, 4 requests: err == nil only with one of the scripted datagrams whose ID and question match; QuestionMatches vs a reference over name x type x class x count variants.",
    "level_note": "Trusted: zonemodel's authority tree (which zone owns a name, what it publishes). SERVFAIL / rejection is always an allowed outcome (the property is a safety property). One NS and one address per zone keep the fan-out sequential; nothing is dropped or delayed, so a history in which an ask took > 300 ms was disturbed by the machine and is discarded and repeated; every violation is re-run 5x from a cold state (reduced to a single tamper when one suffices) before it is reported, non-reproducing ones are counted as dropped_unreproducible. Violations found in the first (uncached) reply do not stop the history: the cache-served repeat and the probes are judged independently, so a finding in one class never masks another. Glue 0.0.0.0 (the unspecified address, delivered to the local host by the OS) is contacted by the unchanged resolver; the property text names only loopback and local-interface addresses, so this is recorded as an outcome, not judged. A QR=0 datagram with matching ID and question is accepted by Exchange; the property constrains ID and question only, so it is recorded, not judged.",
    "rule": "cases = (configuration, warm-up, attacker query, position among the attacker exchanges of its untampered resolution, behaviour[, TCP delivery][, reversed probe order]) + the pair / composition families; 'nontrivial' = the scripted exchange was reached and the response actually sent differs from the honest one (datagram behaviours: the forged datagrams were put on the wire); unit exchange: scripts holding both a matching and a non-matching datagram",
    "assumptions": [
        "one fixed hierarchy family (depth 3-4, one NS and one IPv4 address per zone), not all hierarchies",
        "the attacker controls the servers of z.t. and s.z.t. only; at most two tampered responses per history",
        "IPv6 transport to authorities is off (default): AAAA glue (::1) is enumerated but never eligible",
        "forged datagrams come from the attacker server's own address (an off-path spoofer is the same case without knowledge of the ID)",
    ],
    "bounds": {"quick": "4 configurations x 3 warm-ups x 5 attacker queries (6 positions) x 47 behaviours x {plain, reversed probes, TCP}; pairs 3 x 33^2 under DNSSEC off; exchange: first 8 symbols, sequences <= 3",
               "thorough": "9 attacker queries; pairs under all 4 configurations; all ordered compositions of two behaviours in one response at every position; exchange: all 16 symbols, sequences <= 3"},
    "units": {
        "bailiwick": {"pkg": "internal/verifshim/h_c07", "run": "TestVerifC07Bailiwick", "harness": _H,
                      "shards": 16, "gomaxprocs": 2, "budget_s": {"quick": 70, "thorough": 420}},
        "exchange": {"pkg": "internal/dnsclient", "run": "TestVerifC07Exchange",
                     "harness": {"internal/dnsclient": ["zz_verif_c07_*_test.go"]},
                     "shards": 4, "budget_s": {"quick": 40, "thorough": 120}},
    },
}

# C07/race: verif-only overlay patch of resolver.go (reporting hooks, no behaviour change; line count kept):
# (1) entry of resolveWithCachedNameservers = processDelegation found the referral's zone in the delegation table,
# (2)+(3) who waits in groupLookup's singleflight call on which key and which leader closures are active — the
# explorer's quiescence criterion. The hook functions live in harness/middleware__resolver/zz_verif_export_c07race.go.
_RACE_PATCH = {"middleware/resolver/resolver.go": [
    ['\tif r.equalServers(cached.Servers, rs.servers) {\n',
     '\tvkRaceHit(q.Name, rs.level); if r.equalServers(cached.Servers, rs.servers) {\n'],
    ['\t\tresult, shared, leader, lookupErr := r.sfGroup.TimedDoChanWithRole(ctx, key, func() (any, error) {\n',
     '\t\tvkRaceEnter(key); result, shared, leader, lookupErr := r.sfGroup.TimedDoChanWithRole(ctx, key, func() (any, error) { vkRaceFlight(key, 1); defer vkRaceFlight(key, -1)\n'],
    ['\t\t\treturn r.lookup(ctx, rs, leaderReq, servers)\n\t\t})\n',
     '\t\t\treturn r.lookup(ctx, rs, leaderReq, servers)\n\t\t}); vkRaceLeave(key)\n'],
]}

_RACE_UNIT = {"pkg": "internal/verifshim/h_c07", "run": "TestVerifC07Race", "harness": _H, "patch": _RACE_PATCH,
              "shards": 16, "gomaxprocs": 2, "budget_s": {"quick": 70, "thorough": 600},
              "doc": "event-order exploration of 2 (thorough: also 3) CONCURRENT client resolutions under one not-yet-cached zone on the real default chain: "
                     "every upstream query is parked by a gate in front of each authsim server, each client runs in its own goroutine, the explorer releases one "
                     "parked query at a time and waits for quiescence (overlay hooks around groupLookup's singleflight call + the gate's parked list, no timing), "
                     "depth-first with replay from a cold state over EVERY delivery order. Universe: BASE (t., or p5.p4.p3.p2.t. = at the default QNAME-minimisation "
                     "level) refers straight to evil.co.BASE, two labels down; the attacker's server answers names below sub.evil.co.BASE with a referral whose NS host "
                     "ns1.victim.co.BASE lies outside its zone + glue to a trap; g.BASE is the victim's glue-less second zone (a later resolution consults the glue cache). "
                     "Variants: the new zone's NS host glued / + a second glue-less NS host (lookupV4Nss publishes a provisional table entry while resolving it); "
                     "QNAME minimisation off / 5; cold / parent cached; thorough: 3 clients, two sub-zone queries, validation on. Oracle: trap never contacted, glue "
                     "cache holds only the victim's own address for ns1.victim.co.BASE, later victim probes = zone-model truth or SERVFAIL, client answers carry no "
                     "foreign RRset. 'nontrivial' = executions in which processDelegation found the referral's zone in the delegation table "
                     "(resolveWithCachedNameservers entered). Limits: between two deliveries the resolver's goroutines run free; where ONE delivery wakes two clients "
                     "(shared singleflight lookup under minimisation) what is parked next can depend on their schedule - such branches are the union of what was "
                     "observed (counters choice_sets_differing_on_replay, prefixes_not_replayable)."}

# On /repo before 0ba6f8e the unit reported a genuine defect (36 keys race|<class>|<family>|<variant>|<cfg>, see mutants/C07/RESULTS.md
# "unit race"); repaired there, the unit is part of every run (VERIF_C07_RACE=0 leaves it out).
import os as _os
if _os.environ.get("VERIF_C07_RACE", "1") != "0":
    CHECK["units"]["race"] = _RACE_UNIT
    CHECK["engines"] = CHECK["engines"] + ["event-order"]
    CHECK["bounds"] = {"quick": CHECK["bounds"]["quick"] + "; race: 2 families x 2 variants x qmin {0,5} x {parent cached, cold}, 2 clients, every delivery order (~1.6 k executions)",
                       "thorough": CHECK["bounds"]["thorough"] + "; race: + 3 clients (2 client sets), two sub-zone clients, validation on (~23 k executions)"}
