"""C10 — replies reach only their own client and carry only their own bytes (work in progress)."""

_SRV_RW = {"server": ["sync"], "middleware": ["sync"], "middleware/edns": ["sync"], "middleware/cache": ["sync"],
           "internal/wire": ["sync"], "internal/cache": ["sync"], "internal/dnsclient": ["sync"]}

CHECK = {
    "level": "model_checking",
    "engines": ["event", "space"],
    "technique": "wip",
    "level_text": "wip",
    "level_note": "wip",
    "rule": "wip",
    "assumptions": [],
    "bounds": {"quick": "", "thorough": ""},
    "units": {
        "lease": {"pkg": "middleware", "run": "TestVerifC10Lease",
                  "harness": {"middleware": ["zz_verif_c11_writer_test.go", "zz_verif_c10_*.go"]}, "shards": 4,
                  "budget_s": {"quick": 30, "thorough": 120}},
        "tcp": {"pkg": "server", "run": "TestVerifC10TCP",
                "harness": {"server": ["zz_verif_c11_tcpworld_test.go", "zz_verif_c11_tcp_test.go", "zz_verif_c10_tcp_test.go"], "middleware": ["zz_verif_export.go"]},
                "rewrite": _SRV_RW, "gomaxprocs": 2,
                "budget_s": {"quick": 70, "thorough": 600}},
    },
}
