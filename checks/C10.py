"""C10 — replies reach only their own client and carry only their own bytes."""

# every sync.Pool of these packages becomes a deterministic LIFO (vsync.PoolLIFO): chains, edns/cache
# writers, streams and pack state released by one client are always what the next client gets
_SRV_RW = {"server": ["sync"], "middleware": ["sync"], "middleware/edns": ["sync"], "middleware/cache": ["sync"],
           "internal/wire": ["sync"], "internal/cache": ["sync"], "internal/dnsclient": ["sync"]}
_SRV_H = {"server": ["zz_verif_c11_tcpworld_test.go", "zz_verif_c11_tcp_test.go", "zz_verif_c11_udp_test.go", "zz_verif_c10_*.go"],
          "middleware": ["zz_verif_export.go"]}

# txsched: verif-only scheduling points placed (in the overlay copy only, line numbers preserved) immediately before the
# engine's send calls; vk fails the build (exit 2) when an anchor does not occur exactly once
_VSCHED = 'vsched "github.com/semihalev/sdns/internal/verifshim/sched"'
_TX_PATCH = {
    "server/udp_batch_linux.go": [
        ['\t"unsafe"\n', '\t"unsafe"; ' + _VSCHED + '\n'],
        ['\t\terr := rc.Write(s.writeFn)\n', '\t\tvsched.IOPoint("sendmmsg"); err := rc.Write(s.writeFn)\n'],
    ],
    "server/udp_engine.go": [
        ['\t"syscall"\n', '\t"syscall"; ' + _VSCHED + '\n'],
        ['\t\treturn len(b), nil\n\t}\n\tif j.pktinfoLen > 0 {\n', '\t\treturn len(b), nil\n\t}\n\tvsched.IOPoint("write"); if j.pktinfoLen > 0 {\n'],
        ['\tvar err error\n\tif j.pktinfoLen > 0 {\n', '\tvar err error; vsched.IOPoint("direct")\n\tif j.pktinfoLen > 0 {\n'],
    ],
}

CHECK = {
    "level": "model_checking",
    "engines": ["event", "space", "sched"],
    "technique": "event-level exploration of the real TCP engine with two scripted connections (all interleavings of their reads and closes) and step-order exploration of the real UDP engine over real loopback sockets with 2-3 client sockets, both on the real server entry and the real [edns, cache, marker-stub] pipeline with forced LIFO reuse of every pooled object and slab rings of 1-2; plus exhaustive size/reserve enumeration of the wire-body lease over a poisoned job slab; plus preemption-bounded schedule DFS (controlled cooperative scheduler, lib/sched) over the goroutines of the real UDP engine that put replies on the wire — overflow serves, pool workers (the real worker() body) and a batch reader's inline cycle — with every lock/atomic of package server and a verif-only I/O point placed immediately before each send syscall as scheduling points, over real loopback sockets",
    "level_text": "tcp (sequential family): connection A is closed by its peer at every interesting offset of its stream (after whole frames, inside a length prefix, inside a body; one read cut) and only THEN connection B is accepted and served: B draws the stream, slab and pooled objects A has just released. slabhistory: for every ordered pair (previous client's query P, this client's query V) over 29 targets x 3 packet shapes on every slab-owning entry path (strict, inline+replay, decoded) and both transports of the real server entry, the reply to V served right after P on the same slab is byte-identical to the reply to V on a slab that has served nothing yet (new engine, zeroed buffers; same world and cache state; first ask discarded as warm-up; differences re-run on two fresh worlds). tcp: clients A and B each send <=2 pipelined frames from {cache hit, miss, malformed body, QR=1, NOTIFY, handler panic after the reply (thorough: +2048/2049-byte queries, sub-header frame)}, each stream cut at every structural offset or not at all, under EVERY interleaving of the two connections' read deliveries and peer-close events, with 1 and 2 small slabs (so the slab, stream, chain, writers and pack state one client releases are what the other gets next). Every frame a connection receives must be a whole frame that answers its own query in order (ID, question, per-query marker record), must contain no occurrence of the other client's 8-byte label anywhere, a bare-header rejection must carry zero section counts, replies must be on the wire whenever the connection waits at a frame boundary, and a request that ends without a reply (ignored, malformed, panicked) leaves nothing for the other client; afterwards the engine is quiescent. udp: the C11 step exploration restricted to scenarios where >=2 different sockets send: a datagram reaches only the socket whose query it answers, carries its ID/question/marker, contains no other client's label, ignored/shed requests produce nothing later on a recycled slab. lease: for every body size 12..600/4200 x reserve {0,1,11,28,64} x slab {512,4096}, BeginWire over a leasing transport whose slab is filled with another client's bytes returns len 0 / cap exactly size+reserve (or a clean fallback), appending past the reserve never writes into the slab, and the transport receives exactly the body. txsched: 2-3 datagrams from 2-3 distinct client sockets (kinds: cache hit, miss, header-level NOTIMP; thorough: + EDNS hit, undecodable body, QR=1) become jobs through the reader's own steps, and are then served CONCURRENTLY by (overflow, overflow), (overflow x3), (worker slot 0 with 1-2 queued jobs, overflow), (two workers with different slots sharing the ready queue), (reader inline cycle flushing on the reader's slot, overflow serve of a handed-off miss) and (reader, worker, overflow), on ring-only and inline engines, with 0-1 spare slabs so that a slab released by one sender is the one the reader takes next; EVERY schedule of those threads with <=2 (thorough <=3) preemptions is executed, scheduling points being every vsync/vatomic operation of package server plus the point before each sendmmsg / WriteMsgUDPAddrPort. At quiescence every client socket must hold exactly one reply per admitted query of its own (ID, question, marker), no byte of another client's label and nothing else; inFlight 0, all leases home, every slab parked once and clean, worker/overflow barriers at 0, no send slot still referencing a job. queryer: every sequence of <=3 (thorough <=5) internal sub-queries through ONE real pipelineQueryer (own question and own request tree each), the terminal handler behaving per step as {answers, writes nothing, writes a SERVFAIL marked request-local, answers and then exhausts the tree's work budget, writes SERVFAIL}, with LIFO pools so the BufferWriter and chain released by one sub-query are what the next one gets: Query returns a message only when this step's own handler wrote a response for this step's own question that the queryer's rules accept, otherwise an error (ErrNoResponse when nothing was written). Unit tcpbig: ~9.5 KiB answers (resolved on a miss, and cached = served on the strict path) pipelined with small ones in every order of <= 3 frames x segmentations at the frame boundaries; frames must leave whole, in query order, each its own query's.",
    "level_note": "Trusted: as C11 (scripted net.Conn, kernel side of recvmmsg emulated, engine step functions called from one goroutine). Provenance is checked by byte search for the other client's label (present in its qname, and therefore in its question, answer owner and marker) and by ID; the slack behind a reply inside a job slab is covered by the lease unit, not by inspecting slabs after the fact. Not covered: DoH/DoQ/DoT transports, shared upstream lookups in the resolver (groupLookup copies), dns64/ratelimit/other middlewares' pooled writers, the portable UDP reader's rawSALen scrub (needs mixed batch/portable readers), wildcard pktinfo, real multi-core interleaving inside one step. txsched: the scheduling point before a send is an overlay-only textual patch of the build copy of server/udp_batch_linux.go and server/udp_engine.go (vk unit key \"patch\": `vsched.IOPoint(..)` in front of `rc.Write(s.writeFn)` in sendGroup and of the WriteMsgUDPAddrPort calls in udpJob.Write/sendDirect, plus the import; an anchor that does not occur exactly once is a build error, exit 2) — nothing in /repo. The point sits BEFORE rc.Write, never inside it (a thread must not yield under the runtime's fd lock), so arming (plain stores into the sender's hdrs/iovs) is one atomic block and the send syscall another: interleavings INSIDE the arming loop or inside the kernel's copy of the msghdr are not explored (the duplicate/starved-client shape of a shared sender is, the torn header shape is not). Trusted: vsync/vatomic model sequentially consistent memory; packages other than server are not rewritten (the pipeline between two server-level points is atomic); the kernel side of recvmmsg is emulated as in C11/udp; an overflow serve is the harness running `e.overflowG.Add(1); e.serveOverflow(j)` as a managed thread on a job it took back off the (deep) ready queue, because enqueueCounted's `go` statement cannot be intercepted (udpOverflowServed is not counted); a worker thread is the real worker(slot) body on an already-closed ready queue (shutdown shape: it never blocks, so its only flushes are burst-full, the chain's FlushStaged and the final one); the reader thread transcribes run()'s cycle (take/arm, finishRecv per message, flushTX, compact) without the netpoller; channel operations are not scheduling points. Not driven: the portable reader, wildcard pktinfo, sendmmsg refusal/retirement fallbacks, more than one socket per engine.",
    "rule": "tcp: (slabs, frames of A, frames of B, cut?, cut?, interleaving); 'nontrivial' = interleavings in which the two connections really alternate (a..b..a or b..a..b); udp: datagram sequence x cap x inline x full schedule, nontrivial = >=2 datagrams; lease: nontrivial = sizes actually leased from the slab; txsched: (engine mode, datagram kinds x routes, spare slabs) x every schedule within the preemption bound; 'nontrivial' = schedules in which two different threads were parked at their I/O point at the same time (A armed, B armed, then both sent)",
    "assumptions": ["loopback UDP preserves order per socket pair", "with a single small slab, schedules in which one connection would need the slab the other holds inside a frame body are skipped (the engine would wait on real time); they are explored with 2 slabs"],
    "bounds": {"quick": "tcp: 6 kinds, (1,1),(2,1),(1,2) frames, <=1 cut per client, all interleavings, slabs 1-2; udp: <=3 datagrams, 2 clients, cap 1-2; lease: sizes 12-600; txsched: 129 scenarios (3 kinds, 2-3 datagrams, 2-3 threads), preemption bound 2, exhaustive",
               "thorough": "tcp: 9 kinds, + (2,2) frames (time-capped); udp: <=4 datagrams, 3 clients, cap 1-3 (time-capped); lease: sizes 12-4200; txsched: 6 kinds for pairs, 4 for triples, + (2 workers, 2 overflow) with 4 datagrams, preemption bound 3 (time-capped)"},
    "units": {
        "lease": {"pkg": "middleware", "run": "TestVerifC10Lease",
                  "harness": {"middleware": ["zz_verif_export.go", "zz_verif_c11_writer_test.go", "zz_verif_c10_*.go"]}, "shards": 4,
                  "budget_s": {"quick": 30, "thorough": 120}},
        # the pooled writer of internal sub-queries: a sub-query that ends without a usable response never returns an earlier one's
        "queryer": {"pkg": "middleware", "run": "TestVerifC10Queryer",
                    "harness": {"middleware": ["zz_verif_export.go", "zz_verif_c10_queryer_test.go"]},
                    "rewrite": {"middleware": ["sync"]}, "shards": 5, "budget_s": {"quick": 20, "thorough": 60}},
        # what the previous client left on a recycled slab never shows in the next client's reply (byte-identity with a fresh slab)
        "slabhistory": {"pkg": "server", "run": "TestVerifC10SlabHistory",
                        "harness": {"server": ["zz_verif_srv_*.go", "zz_verif_c05_test.go", "zz_verif_c05_limiter_test.go", "zz_verif_c05_casesize_test.go",
                                               "zz_verif_c06_test.go", "zz_verif_cslab_test.go"], "middleware": ["zz_verif_export.go"]},
                        "stub_tests": ["server"], "shards": 16, "budget_s": {"quick": 60, "thorough": 400}},
        # shared upstream lookups: a caller that joins another caller's lookup is handed a reply with ITS id and question
        # (the C11 lookup exploration: every event order on the real groupLookup/singleflight/lookup path; every caller spells
        # the name in its own letter case)
        "sharedlookup": {"pkg": "middleware/resolver", "run": "TestVerifC10Lookup",
                         "harness": {"middleware/resolver": ["zz_verif_c11lk_*_test.go"]}, "gomaxprocs": 2,
                         "budget_s": {"quick": 40, "thorough": 300}},
        "tcp": {"pkg": "server", "run": "TestVerifC10TCP", "harness": _SRV_H,
                "rewrite": _SRV_RW, "gomaxprocs": 2,
                "budget_s": {"quick": 70, "thorough": 330}},
        # replies beyond the stream's staging room pipelined with small ones (order, wholeness)
        "tcpbig": {"pkg": "server", "run": "TestVerifC10TCPBig", "harness": _SRV_H,
                   "rewrite": _SRV_RW, "gomaxprocs": 2, "shards": 2,
                   "budget_s": {"quick": 40, "thorough": 150}},
        "udp": {"pkg": "server", "run": "TestVerifC10UDP", "harness": _SRV_H,
                "rewrite": _SRV_RW, "gomaxprocs": 2,
                "budget_s": {"quick": 60, "thorough": 300}},
        # concurrent senders under the controlled scheduler: overflow serves / workers / reader cycle interleaved at every
        # server-level lock, atomic and (overlay patch) immediately before every send syscall
        "txsched": {"pkg": "server", "run": "TestVerifC10TxSched",
                    "harness": {"server": ["zz_verif_c11_tcpworld_test.go", "zz_verif_c11_tcp_test.go", "zz_verif_c11_udp_test.go",
                                           "zz_verif_c10_txsched_test.go"], "middleware": ["zz_verif_export.go"]},
                    "rewrite": {"server": ["sync", "sync/atomic"]}, "patch": _TX_PATCH, "gomaxprocs": 1,
                    "budget_s": {"quick": 50, "thorough": 290}},
        # shared upstream lookups: the C11 lookup exploration (leader / followers on the real groupLookup path, shared and
        # lookup-owned requests) is judged here for "each reply carries that query's ID and question" (key lookup/wrong_reply)
        "sharedlookup": {"pkg": "middleware/resolver", "run": "TestVerifC11Lookup",
                         "harness": {"middleware/resolver": ["zz_verif_c11lk_*_test.go"]}, "gomaxprocs": 2,
                         "budget_s": {"quick": 40, "thorough": 420}},
        # the stream staging buffer at every boundary: pipelined replies arrive whole, one per query, in order
        "stream": {"pkg": "server", "run": "TestVerifC10Stream",
                   "harness": {"server": ["zz_verif_cstream_test.go"]},
                   "stub_tests": ["server"], "shards": 8, "budget_s": {"quick": 40, "thorough": 240}},
    },
}
