"""C10 — replies reach only their own client and carry only their own bytes."""

# every sync.Pool of these packages becomes a deterministic LIFO (vsync.PoolLIFO): chains, edns/cache
# writers, streams and pack state released by one client are always what the next client gets
_SRV_RW = {"server": ["sync"], "middleware": ["sync"], "middleware/edns": ["sync"], "middleware/cache": ["sync"],
           "internal/wire": ["sync"], "internal/cache": ["sync"], "internal/dnsclient": ["sync"]}
_SRV_H = {"server": ["zz_verif_c11_tcpworld_test.go", "zz_verif_c11_tcp_test.go", "zz_verif_c11_udp_test.go", "zz_verif_c10_*.go"],
          "middleware": ["zz_verif_export.go"]}

CHECK = {
    "level": "model_checking",
    "engines": ["event", "space"],
    "technique": "event-level exploration of the real TCP engine with two scripted connections (all interleavings of their reads and closes) and step-order exploration of the real UDP engine over real loopback sockets with 2-3 client sockets, both on the real server entry and the real [edns, cache, marker-stub] pipeline with forced LIFO reuse of every pooled object and slab rings of 1-2; plus exhaustive size/reserve enumeration of the wire-body lease over a poisoned job slab",
    "level_text": "tcp: clients A and B each send <=2 pipelined frames from {cache hit, miss, malformed body, QR=1, NOTIFY, handler panic after the reply (thorough: +2048/2049-byte queries, sub-header frame)}, each stream cut at every structural offset or not at all, under EVERY interleaving of the two connections' read deliveries and peer-close events, with 1 and 2 small slabs (so the slab, stream, chain, writers and pack state one client releases are what the other gets next). Every frame a connection receives must be a whole frame that answers its own query in order (ID, question, per-query marker record), must contain no occurrence of the other client's 8-byte label anywhere, a bare-header rejection must carry zero section counts, replies must be on the wire whenever the connection waits at a frame boundary, and a request that ends without a reply (ignored, malformed, panicked) leaves nothing for the other client; afterwards the engine is quiescent. udp: the C11 step exploration restricted to scenarios where >=2 different sockets send: a datagram reaches only the socket whose query it answers, carries its ID/question/marker, contains no other client's label, ignored/shed requests produce nothing later on a recycled slab. lease: for every body size 12..600/4200 x reserve {0,1,11,28,64} x slab {512,4096}, BeginWire over a leasing transport whose slab is filled with another client's bytes returns len 0 / cap exactly size+reserve (or a clean fallback), appending past the reserve never writes into the slab, and the transport receives exactly the body.",
    "level_note": "Trusted: as C11 (scripted net.Conn, kernel side of recvmmsg emulated, engine step functions called from one goroutine). Provenance is checked by byte search for the other client's label (present in its qname, and therefore in its question, answer owner and marker) and by ID; the slack behind a reply inside a job slab is covered by the lease unit, not by inspecting slabs after the fact. Not covered: DoH/DoQ/DoT transports, shared upstream lookups in the resolver (groupLookup copies), dns64/ratelimit/other middlewares' pooled writers, the portable UDP reader's rawSALen scrub (needs mixed batch/portable readers), wildcard pktinfo, real multi-core interleaving inside one step.",
    "rule": "tcp: (slabs, frames of A, frames of B, cut?, cut?, interleaving); 'nontrivial' = interleavings in which the two connections really alternate (a..b..a or b..a..b); udp: datagram sequence x cap x inline x full schedule, nontrivial = >=2 datagrams; lease: nontrivial = sizes actually leased from the slab",
    "assumptions": ["loopback UDP preserves order per socket pair", "with a single small slab, schedules in which one connection would need the slab the other holds inside a frame body are skipped (the engine would wait on real time); they are explored with 2 slabs"],
    "bounds": {"quick": "tcp: 6 kinds, (1,1),(2,1),(1,2) frames, <=1 cut per client, all interleavings, slabs 1-2; udp: <=3 datagrams, 2 clients, cap 1-2; lease: sizes 12-600",
               "thorough": "tcp: 9 kinds, + (2,2) frames (time-capped); udp: <=4 datagrams, 3 clients, cap 1-3 (time-capped); lease: sizes 12-4200"},
    "units": {
        "lease": {"pkg": "middleware", "run": "TestVerifC10Lease",
                  "harness": {"middleware": ["zz_verif_c11_writer_test.go", "zz_verif_c10_*.go"]}, "shards": 4,
                  "budget_s": {"quick": 30, "thorough": 120}},
        "tcp": {"pkg": "server", "run": "TestVerifC10TCP", "harness": _SRV_H,
                "rewrite": _SRV_RW, "gomaxprocs": 2,
                "budget_s": {"quick": 70, "thorough": 330}},
        "udp": {"pkg": "server", "run": "TestVerifC10UDP", "harness": _SRV_H,
                "rewrite": _SRV_RW, "gomaxprocs": 2,
                "budget_s": {"quick": 60, "thorough": 300}},
        # shared upstream lookups: the C11 lookup exploration (leader / followers on the real groupLookup path, shared and
        # lookup-owned requests) is judged here for "each reply carries that query's ID and question" (key lookup/wrong_reply)
        "sharedlookup": {"pkg": "middleware/resolver", "run": "TestVerifC11Lookup",
                         "harness": {"middleware/resolver": ["zz_verif_c11lk_*_test.go"]}, "gomaxprocs": 2,
                         "budget_s": {"quick": 40, "thorough": 420}},
        # the stream staging buffer at every boundary: pipelined replies arrive whole, one per query, in order
        "stream": {"pkg": "server", "run": "TestVerifC10Stream",
                   "harness": {"server": ["zz_verif_cstream_test.go"]},
                   "stub_tests": ["server"], "shards": 8, "budget_s": {"quick": 40, "thorough": 240}},
    },
}
