"""C13 — cached failures (RFC 9520) suppress only what failed, for a bounded time."""

_H = {"middleware/cache": ["zz_verif_common_test.go", "zz_verif_c03_routes_test.go", "zz_verif_c03_test.go", "zz_verif_c13_*.go"], "middleware": ["zz_verif_export.go"]}
_RW = {"middleware/cache": ["time"], "middleware": ["time"], "internal/dnsutil": ["time"]}

CHECK = {
    "level": "model_checking",
    "engines": ["space"],
    "technique": "explicit-state BFS over failing/succeeding/request-local-failing resolution, zone-failure and clock-advance histories on the real cache pipeline (virtual clock), lock-step against a reference back-off automaton; whole lookup alphabet probed after every event; event-order exploration of the real groupLookup/singleflight/lookup path followed by the real handleLookupError tail, with a recording failure store",
    "level_text": "Every history (depth 4 quick / 6 thorough) over asks of 5 questions with upstream outcome {SERVFAIL, success, attempt-limit, cancellation, best-effort branch, work-budget exhaustion}, authority-zone failure reports/clears and clock advances around min, 2*min, max is replayed on a fresh real Cache; after every event 38 probe questions (same/other case, sibling, descendant, label-boundary near-miss, parent, other type/CD/class/ECS audience) are looked up side-effect-free on the message, wire and Store.Get lookups and judged against the reference: a cached-failure answer is legal only if an exact-partition failure or an ancestor-zone failure was recorded and its window (min * 2^(k-1) capped at max <= 5 min, k = consecutive upstream-observed failures since the last success) is still open; request-local failures never create state; rfc9520=off never serves or records. sharedlookup: every order of {authority j starts answering, the short budget's deadline instant passes, a caller's Done() closes, a follower arrives, the capacity-slot holder is answered} for 1-2/3 callers x 2/3 authorities of which at least one answers NOERROR, with a short budget or a capacity limit of 1: after each failed groupLookup the caller runs the real handleLookupError; no zone failure may reach the shared store (an authority of the zone is usable: only a client's own budget or a capacity refusal ended the lookup).",
    "level_note": "Trusted: the reference automaton (upper bound on the suppression window; shorter windows are accepted); the stub stands in for resolver/failover as the source of SERVFAIL and of request-local marks; single-probe election after expiry is explored in C11's dedup unit, capacity eviction only at size 64.",
    "rule": "state = reference keys (streak, seconds left) + the implementation's own failure entries (streak, seconds left); 'nontrivial' = states in which the implementation retains at least one failure entry",
    "assumptions": ["virtual clock moves forward only; real elapsed time inside one history is far below 1 s"],
    "bounds": {"quick": "21-event alphabet, depth 4 (enabled) / 3 (disabled), min/max = 2s/8s", "thorough": "24 events, depth 6 time-capped, + (5s,300s), (1s,1s)"},
    "units": {
        "hist": {"pkg": "middleware/cache", "run": "TestVerifC13Hist", "harness": _H, "rewrite": _RW, "stub_tests": ["middleware/cache"],
                 "budget_s": {"quick": 80, "thorough": 800}},
        # the back-off state under concurrent recorders / recoveries / lookups (schedule exploration)
        "conc": {"pkg": "middleware/cache", "run": "TestVerifC13Conc",
                 "harness": {"middleware/cache": ["zz_verif_c13conc_test.go"]},
                 "rewrite": {"internal/cache": ["sync", "sync/atomic"]}, "stub_tests": ["middleware/cache"],
                 "race_pass": True, "gomaxprocs": 1, "budget_s": {"quick": 60, "thorough": 420}},
        # a client's own deadline must not surface as an authority failure through a shared lookup: the C11 lookup
        # exploration (every event order on the real groupLookup/singleflight/lookup path + the real handleLookupError
        # tail of resolve()), restricted to scenarios with a NOERROR authority and a short budget or a capacity limit
        "sharedlookup": {"pkg": "middleware/resolver", "run": "TestVerifC13Lookup",
                         "harness": {"middleware/resolver": ["zz_verif_c11lk_*_test.go"]}, "gomaxprocs": 2,
                         "budget_s": {"quick": 40, "thorough": 300}},
        # the resolver's side: which zone failures (and request-local failures) become shared state, against authsim
        "zone": {"pkg": "internal/verifshim/h_c13", "run": "TestVerifC13Zone",
                 "doc": "real default chain against authsim zones with 1..4 name servers; every assignment of per-server behaviour {healthy, healthy-but-slow 150 ms, SERVFAIL, REFUSED, drop, garbage} for 1..3 servers (quick; + the '3 lame fast + 1 healthy (slow)' family) / 1..4 servers (thorough, 1296 + qmin variants); after the client query the cache handler's RFC 9520 failure store is listed (export seam) and probed by a follow-up for another name of the zone and one for a sibling zone. Oracle: a zone entry may exist only for a zone none of whose servers gives a usable response, and never for another zone; with a usable server the follow-up is not answered from a cached failure; the sibling is never affected; enforce-mode budget exhaustion (every MaxOutboundQueries 1..8, MaxInternalQueries 1..3), a client context cancelled after 1/30/100/250 ms and a 40/100 ms query deadline record neither question nor zone failures; failing AAAA answers seen only by the detached IPv6 enrichment record nothing; failure -> expiry (1 s initial back-off, waited on observed state) -> useful answer -> failure starts again at streak 1. Server order pinned through authority.randN; violations re-run 3x, disturbed runs repeated.",
                 "harness": {"middleware": ["zz_verif_export.go", "zz_verif_export_c12topo.go"],
                             "middleware/resolver": ["zz_verif_export_authsim.go", "zz_verif_export_c12topo.go"],
                             "middleware/cache": ["zz_verif_export_authsim.go", "zz_verif_export_c13zone.go"],
                             "internal/authority": ["zz_verif_export_authsim.go", "zz_verif_export_c12topo.go"]},
                 "shards": 16, "gomaxprocs": 2, "budget_s": {"quick": 75, "thorough": 600}},
        # load shedding is request-local: capacity limits forced to 1, client A's upstream reply held, client B refused;
        # the failure store must stay empty and fresh clients must be answered with the zone's data
        "shed": {"pkg": "internal/verifshim/h_c13shed", "run": "TestVerifC13Shed",
                 "harness": {"middleware": ["zz_verif_export.go"],
                             "middleware/resolver": ["zz_verif_export_authsim.go", "zz_verif_export_c12topo.go", "zz_verif_export_c13shed.go"],
                             "middleware/cache": ["zz_verif_export_authsim.go", "zz_verif_export_c13zone.go"],
                             "internal/authority": ["zz_verif_export_authsim.go"]},
                 "shards": 16, "gomaxprocs": 2, "budget_s": {"quick": 60, "thorough": 400}},
    },
}
