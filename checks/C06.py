"""C06 — every reply respects what the client sent and negotiated."""

_H = {"server": ["zz_verif_srv_*.go", "zz_verif_c05_test.go", "zz_verif_c06_test.go", "zz_verif_c06_doq_test.go", "zz_verif_c06_edesize_test.go"], "middleware": ["zz_verif_export.go"]}

CHECK = {
    "level": "exploration",
    "engines": ["space"],
    "technique": "bounded-exhaustive differential enumeration (config x cache state x packet shape x transport) of the real Server entry paths: strict wire-born vs reader-inline+replay vs decoded entry vs ServeMsg, replies compared as decoded messages plus upstream hand-off",
    "level_text": "For every configuration, every cached/uncached target (A hit, cached CNAME chain, alias with uncached target, signed answer, NXDOMAIN with proof, descendant of a denied name, NODATA, EDE-bearing, >1232 B, ~512 B, cached SERVFAIL, REFUSED, miss, hosts-file name, empty zone, root) and every packet shape of the alphabet (each header flag, opcodes, section counts 0-3, name forms incl. pointer/truncated/upper-case, qtypes/classes incl. unknown, OPT shapes: sizes 0-65535, version 1, ext-rcode, non-root owner, second OPT, bad rdlen, trailing bytes, 15 option kinds and mixes) on UDP and TCP, the packet is served by the real Server through the real udpJob/tcpJob strict path, the reader-inline path with worker replay, the decoded entry and ServeMsg; the replies must decode to the same message (header bits, rcode, question, sorted sections with TTLs, EDNS version/size/DO/option multiset), agree on drop vs reply, and agree on whether resolution was reached.",
    "level_note": "Trusted: miekg Unpack as the decoder of both replies; the harness' re-implementation of the engines' 12-line header accept step (the real acceptHeader/rejectInPlace are called); real sockets, readers and batching are out of scope here (C10/C11). Limiter-token side effects are compared only through replies (rate-limit configs in thorough).",
    "rule": "cases = config x target x transport x packet; 'nontrivial' = distinct cases that produced a reply on the reference path",
    "assumptions": ["DNS over HTTPS is entered through the real Server.ServeHTTP (RFC 8484 POST and GET, httptest) for every stream-transport case; DNS over QUIC runs through the real doq.Server and a real QUIC client on loopback (unit doq; decodable packets only, since DoQ ends the connection on anything else; reply ID must be 0); the DoH JSON API is not explored; for DoH the 'responses are never answered / NOTIMP / FORMERR' clause is not applied because the statement names the datagram and stream listeners", "the scripted upstream answers unscripted names with TC=1 so that serving a packet does not change cache state between the paths"],
    "bounds": {"quick": "3 configs x 16 targets x 2 transports x ~150 packets x 4-5 paths (decoded, strict, ServeMsg, inline+replay on UDP, DoH POST+GET on the stream cases)", "thorough": "5 configs, + all option pairs and all 128 flag combinations"},
    "units": {
        "sweep": {"pkg": "server", "run": "TestVerifC06", "harness": _H, "stub_tests": ["server"], "budget_s": {"quick": 80, "thorough": 700}},
        # the UDP size clause at its boundary for EDE-bearing cached answers (every body size in a window below / across 512 and 1232)
        "edesize": {"pkg": "server", "run": "TestVerifC06EDESize", "harness": _H, "stub_tests": ["server"], "shards": 2, "budget_s": {"quick": 60, "thorough": 200}},
        # the same alphabet through a real DNS-over-QUIC server and client on loopback (reply ID must be 0)
        "doq": {"pkg": "server", "run": "TestVerifC06DoQ", "harness": _H, "stub_tests": ["server"], "shards": 8, "budget_s": {"quick": 60, "thorough": 300}},
    },
}
