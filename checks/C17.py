"""C17 — access control is exact and applies to clients only."""

CHECK = {
    "level": "exploration",
    "engines": ["space"],
    "technique": "bounded-exhaustive enumeration of (CIDR list, source address, transport, entry path, view declaration order) on the real ipset / accesslist / views / default chain against a naive per-prefix containment reference",
    "level_text": "Every ordered list (with repetition) of <=3/<=4 CIDR strings from a 54-entry universe (IPv4 prefixes on one /28 and its neighbours with lengths 0,1,27-32 incl. host bits set; IPv6 prefixes straddling the 64-bit word boundary with lengths 0,1,63,64,65,127,128; duplicates, nested, adjacent; ::1/128; three IPv4 CIDRs in IPv4-mapped spelling; malformed strings) is compiled by the real ipset.New and queried for every one of 88 probe addresses (whole /28, range boundaries +-1, ::ffff:a.b.c.d forms, v6 word-boundary addresses, invalid slices) through ContainsIP and Contains; the real accesslist handler, the real views handler and the real default middleware chain (defaults.RegisterUpTo(resolver) + Registry.Build + production autoWire, stub in the resolver position) are driven for every list x source x transport x entry path (decoded and wire-born) and judged on replies written and downstream invocations.",
    "level_note": "Reference = hand-tabulated (family, base, bits) bit-prefix comparison, cross-checked once against netip.Prefix.Contains; validity of each universe string is stated by hand, never derived from the parser under test. Transports are in-process middleware.Transport values carrying the address/proto shapes the server hands the chain (UDP/TCP/DoT jobs, DoH mock writer, DoQ writer); no sockets are used. 'No cache lookup / resolution / upstream traffic' is observed as: a denied query asked right after the same question was cached for an admitted client produces no reply, and the handler standing at the resolver position (behind the real cache) is never invoked.",
    "rule": "ipset: all ordered lists over the universe up to the length bound x all probes; non-trivial = list with >=2 parsable entries whose probes are split (some members, some not). acl/views/pipeline: all lists (views: all ordered tuples of network lists) x all sources x transports {udp,tcp,dot,doh,doq,internal sink} x entry {decoded, wire-born, wire-born inline/replay}; non-trivial = configuration that both admits and refuses some source (views: >=2 different views win for different sources; pipeline: each (list, source) pair).",
    "assumptions": [
        "an entry counts as unparsable only if no CIDR grammar accepts it (empty, no mask, mask > width, non-numeric); an IPv4 CIDR spelled in IPv4-mapped form (::ffff:a.b.c.d/n, n >= 96) names a.b.c.d/(n-96): the address of a mapped source literally lies in it, and that is the reading net.ParseCIDR + IPNet.Contains give (cross-checked against them); mapped prefixes shorter than 96 bits are outside the universe",
        "an empty access list (sdns default: open) is not enumerated; a list holding only unparsable entries must admit nobody",
        "views: every declared view carries an answer for the queried name, so 'first matching view' is observable; the fall-through of a matching view without an answer is not judged",
        "structure check (client-policy handlers absent from the internal sub-pipelines; accesslist ahead of every answering handler) is judged on the chain built from middleware/defaults with the resolver replaced by a stub; resolver and forwarder themselves are not started",
    ],
    "bounds": {"quick": "ipset lists <=3 of 54 strings x 88 probes (160,435 lists); acl lists <=2 of 11 x 29 sources x 7 sinks x 4 entries x 2 query shapes; views tuples <=3 of 7 network lists x 26 sources x 6 sinks x 2 entries; pipeline 6 lists x 21 sources x 4 transports x 3 entries + structure + 10 internal sub-queries",
               "thorough": "ipset lists <=4 (8,663,491 lists) plus every ordered list of exactly 5 over a 20-entry nesting/adjacency sub-universe (3,200,000 lists); acl lists <=3; views tuples <=4; pipeline as quick"},
    "units": {
        "ipset": {"pkg": "internal/ipset", "run": "TestVerifC17Ipset",
                  "harness": {"internal/ipset": ["zz_verif_c17_*_test.go"]}},
        "acl": {"pkg": "middleware/accesslist", "run": "TestVerifC17ACL",
                "harness": {"middleware/accesslist": ["zz_verif_c17_*_test.go"]}},
        "views": {"pkg": "middleware/views", "run": "TestVerifC17Views",
                  "harness": {"middleware/views": ["zz_verif_c17_*_test.go"]}},
        "pipeline": {"pkg": "internal/verifshim/h_c17", "run": "TestVerifC17Pipeline",
                     "harness": {"middleware": ["zz_verif_export_c17.go"]}, "shards": 7, "gomaxprocs": 4},
        # the access list at the real server entries, slabs recycled between clients (every <= 3-client sequence)
        "server": {"pkg": "server", "run": "TestVerifC17Server",
                   "harness": {"server": ["zz_verif_srv_*.go", "zz_verif_c05_test.go", "zz_verif_c06_test.go", "zz_verif_c17_server_test.go"], "middleware": ["zz_verif_export.go"]},
                   "stub_tests": ["server"], "budget_s": {"quick": 60, "thorough": 240}},
    },
}
