"""C17 — access control is exact and applies to clients only."""

CHECK = {
    "level": "exploration",
    "engines": ["space"],
    "technique": "bounded-exhaustive enumeration of (CIDR list, source address, transport, entry path, view order) against a naive per-prefix reference",
    "level_text": "placeholder",
    "level_note": "placeholder",
    "rule": "placeholder",
    "assumptions": [],
    "bounds": {"quick": "", "thorough": ""},
    "units": {
        "ipset": {"pkg": "internal/ipset", "run": "TestVerifC17Ipset",
                  "harness": {"internal/ipset": ["zz_verif_c17_*_test.go"]}},
        "acl": {"pkg": "middleware/accesslist", "run": "TestVerifC17ACL",
                "harness": {"middleware/accesslist": ["zz_verif_c17_*_test.go"]}},
        "pipeline": {"pkg": "internal/verifshim/h_c17", "run": "TestVerifC17Pipeline",
                     "harness": {"middleware": ["zz_verif_export_c17.go"]}, "shards": 7, "gomaxprocs": 4},
        "views": {"pkg": "middleware/views", "run": "TestVerifC17Views",
                  "harness": {"middleware/views": ["zz_verif_c17_*_test.go"]}},
    },
}
